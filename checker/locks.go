package main

// E4: lockset, lock-order and lock-transfer analysis over go/ssa.
//
// Locks are sync.Mutex/RWMutex struct fields. A held lock is tracked by its
// access path in the current function ("c.mutex", "sess.mailbox.Mailbox.mutex")
// when the path is resolvable, and always by its class ("Conn.mutex"). The
// held set at a program point is a must-set (meet = intersection). Function
// entry sets are the intersection over all call sites reachable from the
// property's goroutine roots; net lock effects of callees (locks still held at
// return, locks released without being acquired) are summarised bottom-up so
// that wrappers such as newResponseEncoder/responseEncoder.end or
// beginCommand/commandEncoder.end act as acquire/release.

import (
	"fmt"
	"go/ast"
	"go/token"
	"go/types"
	"sort"
	"strings"

	"golang.org/x/tools/go/ssa"
)

// heldSet: path → class. A class-only hold (instance unknown) has path "~class".
type heldSet map[string]string

func (h heldSet) clone() heldSet {
	n := make(heldSet, len(h))
	for k, v := range h {
		n[k] = v
	}
	return n
}
func (h heldSet) hasClass(c string) bool {
	for _, v := range h {
		if v == c {
			return true
		}
	}
	return false
}
func (h heldSet) classes() []string {
	m := map[string]bool{}
	for _, v := range h {
		m[v] = true
	}
	var l []string
	for k := range m {
		l = append(l, k)
	}
	sort.Strings(l)
	return l
}
func (h heldSet) String() string {
	var l []string
	for k, v := range h {
		if strings.HasPrefix(k, "~") {
			l = append(l, v)
		} else {
			l = append(l, k)
		}
	}
	sort.Strings(l)
	return "{" + strings.Join(l, ", ") + "}"
}

var heldLattice = lattice[heldSet]{
	join: func(a, b heldSet) heldSet {
		n := heldSet{}
		for k, v := range a {
			if b[k] == v {
				n[k] = v
			} else if b.hasClass(v) {
				n["~"+v] = v // held on both sides, different/unknown instance
			}
		}
		for k, v := range b {
			if _, ok := n[k]; !ok && a.hasClass(v) {
				n["~"+v] = v
			}
		}
		return n
	},
	equal: func(a, b heldSet) bool {
		if len(a) != len(b) {
			return false
		}
		for k, v := range a {
			if b[k] != v {
				return false
			}
		}
		return true
	},
}

// pathOf renders the access path of a pointer/struct value, "" if unknown.
func pathOf(v ssa.Value) string {
	switch x := v.(type) {
	case *ssa.Parameter:
		return x.Name()
	case *ssa.FreeVar:
		return "&" + x.Name()
	case *ssa.Alloc:
		if x.Comment != "" && x.Comment != "complit" {
			return "&" + x.Comment
		}
		return ""
	case *ssa.FieldAddr:
		p := pathOf(x.X)
		if p == "" {
			return ""
		}
		r, _ := fieldOf(x)
		return p + "." + r.Field.Name()
	case *ssa.Field:
		p := pathOf(x.X)
		if p == "" {
			return ""
		}
		r, _ := fieldOf(x)
		return p + "." + r.Field.Name()
	case *ssa.UnOp:
		if x.Op == token.MUL {
			p := pathOf(x.X)
			if strings.HasPrefix(p, "&") {
				return p[1:]
			}
			return p // load of a pointer field: same path
		}
	case *ssa.ChangeType:
		return pathOf(x.X)
	case *ssa.MakeInterface:
		return pathOf(x.X)
	}
	return ""
}

// lockClassOf: class name of the mutex addressed by v ("Owner.field").
func lockClassOf(v ssa.Value) string {
	if fa, ok := v.(*ssa.FieldAddr); ok {
		r, _ := fieldOf(fa)
		if r.Owner != nil {
			return r.Owner.Obj().Pkg().Name() + "." + r.Owner.Obj().Name() + "." + r.Field.Name()
		}
		return "?." + r.Field.Name()
	}
	return ""
}

func isMutexOp(c ssa.CallInstruction) (op string, recv ssa.Value) {
	obj := calleeObj(c)
	if obj == nil || obj.Pkg() == nil || obj.Pkg().Path() != "sync" {
		return "", nil
	}
	n := recvNamed(obj)
	if n == nil || (n.Obj().Name() != "Mutex" && n.Obj().Name() != "RWMutex") {
		return "", nil
	}
	args := c.Common().Args
	if len(args) == 0 {
		return "", nil
	}
	switch obj.Name() {
	case "Lock", "RLock":
		return "lock", args[0]
	case "Unlock", "RUnlock":
		return "unlock", args[0]
	}
	return "", nil
}

type lockEffect struct {
	acquires map[string]bool // classes still held at every return that were not held at entry
	releases map[string]bool // classes released without having been acquired inside
}

type orderEdge struct {
	from, to         string
	fromPath, toPath string
	site             ssa.Instruction
	fn               *ssa.Function
	via              string // callee through which the lock is acquired ("" = direct)
}

type lockAnalysis struct {
	p        *Program
	g        *modGraph
	reach    map[*ssa.Function]bool
	roots    []*ssa.Function
	entry    map[*ssa.Function]heldSet // nil = not yet called (top)
	effects  map[*ssa.Function]*lockEffect
	acqTrans map[*ssa.Function]map[string]bool // classes possibly acquired by f or its callees
	in       map[*ssa.Function]map[*ssa.BasicBlock]*heldSet
	edges    []orderEdge
	edgeSeen map[string]bool
	collect  bool
	cut      func(caller, callee *ssa.Function) bool // call edges to ignore (layering lemma)
	blockOps []blockingOp
	acqPF    map[*ssa.Function]map[string]bool         // locks f may acquire, not counting calls through its own function parameters
	hp       map[*ssa.Function]map[int]map[string]bool // locks f itself holds when it invokes its function parameter i
}

type blockingOp struct {
	fn   *ssa.Function
	ins  ssa.Instruction
	held heldSet
	what string
}

func newLockAnalysis(p *Program, roots []*ssa.Function, cut func(caller, callee *ssa.Function) bool) *lockAnalysis {
	a := &lockAnalysis{p: p, roots: roots, entry: map[*ssa.Function]heldSet{}, effects: map[*ssa.Function]*lockEffect{},
		acqTrans: map[*ssa.Function]map[string]bool{}, acqPF: map[*ssa.Function]map[string]bool{}, hp: map[*ssa.Function]map[int]map[string]bool{}, in: map[*ssa.Function]map[*ssa.BasicBlock]*heldSet{}, edgeSeen: map[string]bool{}, cut: cut}
	a.g = buildModGraph(p, p.VTA(), nil)
	if cut != nil {
		for f, m := range a.g.succ {
			for cal := range m {
				if cut(f, cal) {
					delete(m, cal)
				}
			}
		}
	}
	a.reach = a.g.reachable(roots...)
	a.solve()
	return a
}

func (a *lockAnalysis) callees(fn *ssa.Function, site ssa.CallInstruction) []*ssa.Function {
	var out []*ssa.Function
	for cal, sites := range a.g.succ[fn] {
		for _, s := range sites {
			if s == site {
				out = append(out, cal)
			}
		}
	}
	sort.Slice(out, func(i, j int) bool { return out[i].String() < out[j].String() })
	return out
}

func (a *lockAnalysis) solve() {
	var funcs []*ssa.Function
	for f := range a.reach {
		if f.Blocks != nil {
			funcs = append(funcs, f)
		}
	}
	sort.Slice(funcs, func(i, j int) bool { return funcs[i].String() < funcs[j].String() })
	// transitive acquire sets
	for _, f := range funcs {
		a.acqTrans[f] = map[string]bool{}
		allInstrs(f, func(i ssa.Instruction) {
			if c, ok := i.(ssa.CallInstruction); ok {
				if op, recv := isMutexOp(c); op == "lock" {
					a.acqTrans[f][lockClassOf(recv)] = true
				}
			}
		})
	}
	for changed := true; changed; {
		changed = false
		for _, f := range funcs {
			for cal := range a.g.succ[f] {
				for k := range a.acqTrans[cal] {
					if !a.acqTrans[f][k] {
						a.acqTrans[f][k] = true
						changed = true
					}
				}
			}
			// closures created here may be invoked by callees; their locks count for
			// whoever calls them (the call graph has those edges), nothing to add
		}
	}
	for _, r := range a.roots {
		a.entry[r] = heldSet{}
	}
	// Entry sets are recomputed from scratch in every round (an intersection
	// accumulated across rounds would keep the imprecision of early rounds, in
	// which the callees' lock effects were not known yet).
	for round := 0; round < 80; round++ {
		next := map[*ssa.Function]heldSet{}
		for _, r := range a.roots {
			next[r] = heldSet{}
		}
		effChanged := false
		for _, f := range funcs {
			if a.entry[f] == nil {
				continue
			}
			before := a.effects[f]
			a.runFunc(f, false, func(cal *ssa.Function, h heldSet) {
				if old, ok := next[cal]; !ok {
					next[cal] = h
				} else {
					next[cal] = heldLattice.join(old, h)
				}
			})
			if !sameEffect(before, a.effects[f]) {
				effChanged = true
			}
		}
		same := len(next) == len(a.entry)
		if same {
			for f, h := range next {
				if a.entry[f] == nil || !heldLattice.equal(a.entry[f], h) {
					same = false
					break
				}
			}
		}
		a.entry = next
		if same && !effChanged {
			break
		}
	}
	a.higherOrder(funcs)
	a.collect = true
	for _, f := range funcs {
		if a.entry[f] != nil {
			a.runFunc(f, true, nil)
		}
	}
}

// ownParamIndex: the call is made through (a copy of) one of fn's own
// function-typed parameters.
func ownParamIndex(fn *ssa.Function, v ssa.Value) int {
	pp := paramOf(v)
	if pp == nil {
		return -1
	}
	for i, q := range fn.Params {
		if q == pp {
			if _, ok := q.Type().Underlying().(*types.Signature); ok {
				return i
			}
		}
	}
	return -1
}

// funcArgs: function values passed at a call site: (argument index in the
// callee's parameter list, the function passed or nil, own-parameter index or -1).
type funcArg struct {
	idx   int
	fn    *ssa.Function
	param int
}

func funcArgsOf(fn *ssa.Function, c ssa.CallInstruction) []funcArg {
	var out []funcArg
	off := 0
	if c.Common().IsInvoke() {
		off = 1
	}
	for i, a := range c.Common().Args {
		if _, ok := a.Type().Underlying().(*types.Signature); !ok {
			continue
		}
		fa := funcArg{idx: i + off, param: -1}
		switch x := a.(type) {
		case *ssa.MakeClosure:
			fa.fn = x.Fn.(*ssa.Function)
		case *ssa.Function:
			fa.fn = x
		default:
			fa.param = ownParamIndex(fn, a)
		}
		out = append(out, fa)
	}
	return out
}

// localClasses: classes held at ins that were acquired in this frame (not
// inherited from the callers).
func (a *lockAnalysis) localHeld(fn *ssa.Function, h heldSet) heldSet {
	out := heldSet{}
	ent := a.entry[fn]
	for p, k := range h {
		if ent[p] == k {
			continue
		}
		out[p] = k
	}
	return out
}

func (a *lockAnalysis) higherOrder(funcs []*ssa.Function) {
	for _, f := range funcs {
		a.acqPF[f] = map[string]bool{}
		a.hp[f] = map[int]map[string]bool{}
	}
	add := func(m map[string]bool, k string) bool {
		if m[k] {
			return false
		}
		m[k] = true
		return true
	}
	for changed := true; changed; {
		changed = false
		for _, f := range funcs {
			if a.entry[f] == nil {
				continue
			}
			allInstrs(f, func(i ssa.Instruction) {
				c, ok := i.(ssa.CallInstruction)
				if !ok {
					return
				}
				if _, isGo := i.(*ssa.Go); isGo {
					return
				}
				if op, recv := isMutexOp(c); op != "" {
					if op == "lock" && add(a.acqPF[f], lockClassOf(recv)) {
						changed = true
					}
					return
				}
				h, reach := a.heldAt(i)
				if !reach {
					return
				}
				local := a.localHeld(f, h)
				if pi := ownParamIndex(f, c.Common().Value); pi >= 0 && !c.Common().IsInvoke() {
					// f invokes its own function parameter
					if a.hp[f][pi] == nil {
						a.hp[f][pi] = map[string]bool{}
					}
					for _, k := range local {
						if add(a.hp[f][pi], k) {
							changed = true
						}
					}
					return
				}
				fargs := funcArgsOf(f, c)
				for _, cal := range a.callees(f, c) {
					for k := range a.acqPF[cal] {
						if add(a.acqPF[f], k) {
							changed = true
						}
					}
					for _, fa := range fargs {
						if fa.fn != nil {
							for k := range a.acqPF[fa.fn] {
								if add(a.acqPF[f], k) {
									changed = true
								}
							}
						}
						if fa.param >= 0 {
							// pass-through of f's own parameter
							if a.hp[f][fa.param] == nil {
								a.hp[f][fa.param] = map[string]bool{}
							}
							for _, k := range local {
								if add(a.hp[f][fa.param], k) {
									changed = true
								}
							}
							for k := range a.hp[cal][fa.idx] {
								if add(a.hp[f][fa.param], k) {
									changed = true
								}
							}
						}
					}
				}
			})
		}
	}
}

func sameEffect(x, y *lockEffect) bool {
	if x == nil || y == nil {
		return x == y
	}
	if len(x.acquires) != len(y.acquires) || len(x.releases) != len(y.releases) {
		return false
	}
	for k := range x.acquires {
		if !y.acquires[k] {
			return false
		}
	}
	for k := range x.releases {
		if !y.releases[k] {
			return false
		}
	}
	return true
}

// translate maps the caller's held paths into the callee's parameter names.
func translate(h heldSet, site ssa.CallInstruction, callee *ssa.Function, sameFrame bool) heldSet {
	out := heldSet{}
	for _, cls := range h {
		out["~"+cls] = cls
	}
	if sameFrame {
		// a closure invoked by the function that created it: variable names coincide
		for p, cls := range h {
			if !strings.HasPrefix(p, "~") {
				out[p] = cls
				delete(out, "~"+cls)
			}
		}
		return out
	}
	args := site.Common().Args
	off := 0
	if site.Common().IsInvoke() {
		// receiver is Common().Value
		if len(callee.Params) > 0 {
			if ap := pathOf(site.Common().Value); ap != "" {
				mapPrefix(h, out, ap, callee.Params[0].Name())
			}
		}
		off = 1
	}
	for i, arg := range args {
		if i+off >= len(callee.Params) {
			break
		}
		if ap := pathOf(arg); ap != "" {
			mapPrefix(h, out, ap, callee.Params[i+off].Name())
		}
	}
	return out
}

func mapPrefix(h, out heldSet, from, to string) {
	for p, cls := range h {
		if strings.HasPrefix(p, from+".") {
			out[to+p[len(from):]] = cls
			delete(out, "~"+cls)
		}
	}
}

func (a *lockAnalysis) addEdge(e orderEdge) {
	k := e.from + "→" + e.to + "@" + a.p.pos(e.site.Pos()) + "|" + e.fromPath + "|" + e.toPath
	if a.edgeSeen[k] {
		return
	}
	a.edgeSeen[k] = true
	a.edges = append(a.edges, e)
}

// runFunc analyses one function from its entry set.
func (a *lockAnalysis) runFunc(fn *ssa.Function, collect bool, callCtx func(*ssa.Function, heldSet)) {
	entry := a.entry[fn].clone()
	releasedOutside := map[string]bool{}
	transfer := func(h heldSet, ins ssa.Instruction, observe bool) heldSet {
		c, ok := ins.(ssa.CallInstruction)
		if !ok {
			if observe && collect {
				switch x := ins.(type) {
				case *ssa.Send:
					a.blockOps = append(a.blockOps, blockingOp{fn, ins, h.clone(), "channel send"})
				case *ssa.UnOp:
					if x.Op == token.ARROW {
						a.blockOps = append(a.blockOps, blockingOp{fn, ins, h.clone(), "channel receive"})
					}
				case *ssa.Select:
					if x.Blocking {
						a.blockOps = append(a.blockOps, blockingOp{fn, ins, h.clone(), "blocking select"})
					}
				}
			}
			return h
		}
		if _, isDefer := ins.(*ssa.Defer); isDefer {
			return h // deferred unlocks keep the lock until exit; deferred closures analysed as closures
		}
		if op, recv := isMutexOp(c); op != "" {
			cls := lockClassOf(recv)
			path := pathOf(recv)
			n := h.clone()
			if op == "lock" {
				if observe && collect {
					for p1, k1 := range a.localHeld(fn, h) {
						a.addEdge(orderEdge{from: k1, to: cls, fromPath: p1, toPath: path, site: ins, fn: fn})
					}
				}
				if path == "" {
					path = "~" + cls
				}
				n[path] = cls
				delete(n, "~"+cls+"#") // no-op, keeps gofmt quiet about unused
			} else {
				if path != "" && n[path] == cls {
					delete(n, path)
				} else if n.hasClass(cls) {
					for p, k := range n {
						if k == cls {
							delete(n, p)
							break
						}
					}
				} else {
					releasedOutside[cls] = true
				}
			}
			return n
		}
		if _, isGo := ins.(*ssa.Go); isGo {
			if callCtx != nil {
				for _, cal := range a.callees(fn, c) {
					callCtx(cal, heldSet{})
				}
				if mc, ok := c.Common().Value.(*ssa.MakeClosure); ok {
					callCtx(mc.Fn.(*ssa.Function), heldSet{})
				}
			}
			return h
		}
		cals := a.callees(fn, c)
		n := h
		for _, cal := range cals {
			if callCtx != nil && cal.Blocks != nil {
				same := cal.Parent() == fn
				callCtx(cal, translate(h, c, cal, same))
			}
			if observe && collect && ownParamIndex(fn, c.Common().Value) < 0 {
				local := a.localHeld(fn, h)
				for k2 := range a.acqPF[cal] {
					for p1, k1 := range local {
						a.addEdge(orderEdge{from: k1, to: k2, fromPath: p1, toPath: "", site: ins, fn: fn, via: fnKey(cal)})
					}
				}
				// callbacks passed here run under what this frame holds plus what
				// the callee holds when it invokes them
				for _, fa := range funcArgsOf(fn, c) {
					if fa.fn == nil {
						continue
					}
					for k2 := range a.acqPF[fa.fn] {
						for p1, k1 := range local {
							a.addEdge(orderEdge{from: k1, to: k2, fromPath: p1, toPath: "", site: ins, fn: fn, via: fnKey(fa.fn)})
						}
						for k1 := range a.hp[cal][fa.idx] {
							a.addEdge(orderEdge{from: k1, to: k2, fromPath: "held by " + fnKey(cal) + " when it invokes the callback", toPath: "", site: ins, fn: fn, via: fnKey(fa.fn)})
						}
					}
				}
			}
		}
		// net effects: only when the callee set is a single function (wrappers)
		if len(cals) == 1 {
			if eff := a.effects[cals[0]]; eff != nil && (len(eff.acquires) > 0 || len(eff.releases) > 0) {
				n = h.clone()
				for k := range eff.releases {
					for p, cls := range n {
						if cls == k {
							delete(n, p)
							break
						}
					}
				}
				for k := range eff.acquires {
					n["~"+k] = k
				}
			}
		}
		return n
	}
	in := forward(fn, heldLattice, entry,
		func(h heldSet, i ssa.Instruction) heldSet { return transfer(h, i, false) },
		func(h heldSet, b *ssa.BasicBlock, s int) (heldSet, bool) { return h, true })
	a.in[fn] = in
	// effects and observation pass
	var atReturns *heldSet
	for _, b := range fn.Blocks {
		p := in[b]
		if p == nil {
			continue
		}
		cur := *p
		for _, i := range b.Instrs {
			if _, ok := i.(*ssa.Return); ok && b != fn.Recover {
				// deferred unlocks run here
				h := cur.clone()
				allInstrs(fn, func(j ssa.Instruction) {
					if d, ok := j.(*ssa.Defer); ok {
						if op, recv := isMutexOp(d); op == "unlock" {
							path, cls := pathOf(recv), lockClassOf(recv)
							if path != "" && h[path] == cls {
								delete(h, path)
							} else {
								for pp, k := range h {
									if k == cls {
										delete(h, pp)
										break
									}
								}
							}
						}
						if eff := a.effects[staticCallee(d)]; eff != nil {
							for k := range eff.releases {
								for pp, cls := range h {
									if cls == k {
										delete(h, pp)
										break
									}
								}
							}
						}
					}
				})
				if atReturns == nil {
					x := h
					atReturns = &x
				} else {
					j := heldLattice.join(*atReturns, h)
					atReturns = &j
				}
			}
			cur = transfer(cur, i, true)
		}
	}
	// deferred calls run at exit: their callees are entered with what is held
	// at the returns (before the deferred unlocks)
	if callCtx != nil {
		exitHeldFor := func(d *ssa.Defer) heldSet {
			var exitHeld *heldSet
			for _, ret := range returnsOf(fn) {
				p := in[ret.Block()]
				if p == nil {
					continue
				}
				// only exits at which this defer has been registered
				if !(d.Block() == ret.Block() || reaches(d.Block(), ret.Block())) {
					continue
				}
				cur := *p
				for _, i := range ret.Block().Instrs {
					if i == ssa.Instruction(ret) {
						break
					}
					cur = transfer(cur, i, false)
				}
				if exitHeld == nil {
					x := cur
					exitHeld = &x
				} else {
					j := heldLattice.join(*exitHeld, cur)
					exitHeld = &j
				}
			}
			if exitHeld == nil {
				return heldSet{}
			}
			return *exitHeld
		}
		allInstrs(fn, func(j ssa.Instruction) {
			d, ok := j.(*ssa.Defer)
			if !ok {
				return
			}
			if op, _ := isMutexOp(d); op != "" {
				return
			}
			eh := exitHeldFor(d)
			for _, cal := range a.callees(fn, d) {
				if cal.Blocks != nil {
					callCtx(cal, translate(eh, d, cal, cal.Parent() == fn))
				}
			}
			if mc, ok := d.Call.Value.(*ssa.MakeClosure); ok {
				callCtx(mc.Fn.(*ssa.Function), translate(eh, d, mc.Fn.(*ssa.Function), true))
			}
		})
	}
	eff := &lockEffect{acquires: map[string]bool{}, releases: releasedOutside}
	if atReturns != nil {
		for _, cls := range *atReturns {
			if !a.entry[fn].hasClass(cls) {
				eff.acquires[cls] = true
			}
		}
		// a lock held by every caller and no longer held at return was released here
		for _, cls := range a.entry[fn] {
			if !atReturns.hasClass(cls) {
				eff.releases[cls] = true
			}
		}
	}
	a.effects[fn] = eff
}

// heldAt returns the held set just before ins.
func (a *lockAnalysis) heldAt(ins ssa.Instruction) (heldSet, bool) {
	fn := ins.Parent()
	m := a.in[fn]
	if m == nil || m[ins.Block()] == nil {
		return nil, false
	}
	cur := *m[ins.Block()]
	for _, i := range ins.Block().Instrs {
		if i == ins {
			return cur, true
		}
		cur = a.step(fn, cur, i)
	}
	return cur, true
}

// step repeats the transfer function without side effects.
func (a *lockAnalysis) step(fn *ssa.Function, h heldSet, ins ssa.Instruction) heldSet {
	c, ok := ins.(ssa.CallInstruction)
	if !ok {
		return h
	}
	if _, isDefer := ins.(*ssa.Defer); isDefer {
		return h
	}
	if _, isGo := ins.(*ssa.Go); isGo {
		return h
	}
	if op, recv := isMutexOp(c); op != "" {
		cls, path := lockClassOf(recv), pathOf(recv)
		n := h.clone()
		if op == "lock" {
			if path == "" {
				path = "~" + cls
			}
			n[path] = cls
		} else if path != "" && n[path] == cls {
			delete(n, path)
		} else {
			for p, k := range n {
				if k == cls {
					delete(n, p)
					break
				}
			}
		}
		return n
	}
	cals := a.callees(fn, c)
	if len(cals) == 1 {
		if eff := a.effects[cals[0]]; eff != nil && (len(eff.acquires) > 0 || len(eff.releases) > 0) {
			n := h.clone()
			for k := range eff.releases {
				for p, cls := range n {
					if cls == k {
						delete(n, p)
						break
					}
				}
			}
			for k := range eff.acquires {
				n["~"+k] = k
			}
			return n
		}
	}
	return h
}

// ---- guarded fields from the repository's struct layout convention ----------

type guardInfo struct {
	owner     *types.Named
	mutex     *types.Var
	class     string
	fields    map[*types.Var]bool
	fieldList []string
}

// guardedFields reads, for every struct of the given packages, the fields that
// follow a sync.Mutex field up to the next blank line (the repo's convention),
// plus fields whose comment says "protected by X.mutex".
func guardedFields(p *Program, pkgSuffixes ...string) map[*types.Var]*guardInfo {
	out := map[*types.Var]*guardInfo{}
	classes := map[string]*guardInfo{}
	for _, suf := range pkgSuffixes {
		path := modPath
		if suf != "" {
			path += "/" + suf
		}
		pk := p.Pkgs[path]
		if pk == nil {
			continue
		}
		for _, file := range pk.Syntax {
			ast.Inspect(file, func(n ast.Node) bool {
				ts, ok := n.(*ast.TypeSpec)
				if !ok {
					return true
				}
				st, ok := ts.Type.(*ast.StructType)
				if !ok {
					return true
				}
				named, _ := pk.TypesInfo.Defs[ts.Name].Type().(*types.Named)
				var cur *guardInfo
				prevLine := -1
				for _, fld := range st.Fields.List {
					line := p.Fset.Position(fld.Pos()).Line
					if fld.Doc != nil {
						line = p.Fset.Position(fld.Doc.Pos()).Line
					}
					if prevLine >= 0 && line > prevLine+1 {
						cur = nil // blank line ends the guarded group
					}
					prevLine = p.Fset.Position(fld.End()).Line
					if fld.Comment != nil {
						prevLine = p.Fset.Position(fld.Comment.End()).Line
					}
					t := pk.TypesInfo.TypeOf(fld.Type)
					isMutex := false
					if nt, ok := t.(*types.Named); ok && nt.Obj().Pkg() != nil && nt.Obj().Pkg().Path() == "sync" && (nt.Obj().Name() == "Mutex" || nt.Obj().Name() == "RWMutex") {
						isMutex = true
					}
					for _, nm := range fld.Names {
						v, _ := pk.TypesInfo.Defs[nm].(*types.Var)
						if v == nil {
							continue
						}
						if isMutex {
							cur = &guardInfo{owner: named, mutex: v, class: pk.Types.Name() + "." + ts.Name.Name + "." + nm.Name, fields: map[*types.Var]bool{}}
							classes[cur.class] = cur
							continue
						}
						if cur != nil {
							cur.fields[v] = true
							cur.fieldList = append(cur.fieldList, nm.Name)
							out[v] = cur
						}
					}
					// "protected by T.mutex" comments
					for _, cg := range []*ast.CommentGroup{fld.Doc, fld.Comment} {
						if cg == nil {
							continue
						}
						txt := cg.Text()
						if i := strings.Index(txt, "protected by "); i >= 0 {
							ref := strings.Fields(txt[i+len("protected by "):])
							if len(ref) > 0 {
								cls := pk.Types.Name() + "." + strings.TrimRight(ref[0], ".,")
								for _, nm := range fld.Names {
									if v, _ := pk.TypesInfo.Defs[nm].(*types.Var); v != nil {
										gi := classes[cls]
										if gi == nil {
											gi = &guardInfo{class: cls, fields: map[*types.Var]bool{}}
											classes[cls] = gi
										}
										out[v] = &guardInfo{owner: nil, mutex: gi.mutex, class: cls, fields: map[*types.Var]bool{v: true}, fieldList: []string{nm.Name}}
									}
								}
							}
						}
					}
				}
				return true
			})
		}
	}
	return out
}

type fieldAccess struct {
	fn    *ssa.Function
	ins   ssa.Instruction
	field *types.Var
	write bool
	base  ssa.Value
	held  heldSet
}

// accesses lists reads and writes of the guarded fields in reachable functions.
func (a *lockAnalysis) accesses(guards map[*types.Var]*guardInfo) []fieldAccess {
	var out []fieldAccess
	var funcs []*ssa.Function
	for f := range a.reach {
		if f.Blocks != nil && a.entry[f] != nil {
			funcs = append(funcs, f)
		}
	}
	sort.Slice(funcs, func(i, j int) bool { return funcs[i].String() < funcs[j].String() })
	for _, fn := range funcs {
		allInstrs(fn, func(i ssa.Instruction) {
			fa, ok := i.(*ssa.FieldAddr)
			if !ok {
				if f, ok := i.(*ssa.Field); ok {
					r, _ := fieldOf(f)
					if guards[r.Field] != nil {
						h, _ := a.heldAt(i)
						out = append(out, fieldAccess{fn, i, r.Field, false, f.X, h})
					}
				}
				return
			}
			r, _ := fieldOf(fa)
			if guards[r.Field] == nil {
				return
			}
			for _, ref := range *fa.Referrers() {
				write := false
				switch x := ref.(type) {
				case *ssa.Store:
					write = x.Addr == ssa.Value(fa)
				case *ssa.UnOp:
					// a load; a following map update / append-store shows up as its own store
				case *ssa.MapUpdate:
					write = true
				default:
					_ = x
				}
				h, reach := a.heldAt(ref)
				if !reach {
					continue
				}
				// loads of a map followed by MapUpdate / delete are writes of the guarded data
				if ld, ok := ref.(*ssa.UnOp); ok && ld.Op == token.MUL {
					for _, use := range *ld.Referrers() {
						switch u := use.(type) {
						case *ssa.MapUpdate:
							if u.Map == ssa.Value(ld) {
								hh, _ := a.heldAt(u)
								out = append(out, fieldAccess{fn, u, r.Field, true, fa.X, hh})
							}
						case ssa.CallInstruction:
							if b, ok := u.Common().Value.(*ssa.Builtin); ok && b.Name() == "delete" {
								hh, _ := a.heldAt(u)
								out = append(out, fieldAccess{fn, u, r.Field, true, fa.X, hh})
							}
						}
					}
				}
				out = append(out, fieldAccess{fn, ref, r.Field, write, fa.X, h})
			}
		})
	}
	for k := range out {
		a.refineBySharedCallers(&out[k])
	}
	return out
}

// refineBySharedCallers: an access through a parameter of a helper whose
// callers are all visible (setFlag(msg) …). Call sites that pass an object
// still under construction do not constrain the lockset; the classes held at
// every other call site are added as class-level holds. If every call site
// passes a fresh object the access is marked "~fresh".
func (a *lockAnalysis) refineBySharedCallers(ac *fieldAccess) {
	fn := ac.fn
	prm := paramOf(ac.base)
	if prm == nil {
		if q, ok := ac.base.(*ssa.Parameter); ok {
			prm = q
		}
	}
	if prm == nil || prm.Parent() != fn || !contextEligible(fn) {
		return
	}
	idx := -1
	for k, q := range fn.Params {
		if q == prm {
			idx = k
		}
	}
	if idx < 0 {
		return
	}
	var common map[string]bool
	shared, fresh := 0, 0
	for _, site := range callSitesOf(a.p, fn) {
		args := site.Common().Args
		if idx >= len(args) {
			return
		}
		h, reach := a.heldAt(site)
		if !reach {
			continue
		}
		if isFreshLocal(args[idx]) {
			fresh++
			continue
		}
		shared++
		cl := map[string]bool{}
		for _, c := range h.classes() {
			cl[c] = true
		}
		if common == nil {
			common = cl
		} else {
			for c := range common {
				if !cl[c] {
					delete(common, c)
				}
			}
		}
	}
	if fresh == 0 {
		return
	}
	nh := ac.held.clone()
	if nh == nil {
		nh = heldSet{}
	}
	if shared == 0 {
		nh["~fresh"] = "object under construction at every call site"
	}
	for c := range common {
		if !nh.hasClass(c) {
			nh["~"+c] = c
		}
	}
	ac.held = nh
}

// isFreshLocal: the struct whose field is accessed was allocated in this
// function (it has not been shared yet).
func isFreshLocal(v ssa.Value) bool {
	switch x := v.(type) {
	case *ssa.Alloc:
		return true
	case *ssa.UnOp:
		if x.Op == token.MUL {
			if al, ok := x.X.(*ssa.Alloc); ok {
				// a local variable holding the pointer: fresh if every store into it is a fresh allocation
				fresh := true
				n := 0
				for _, ref := range *al.Referrers() {
					if st, ok := ref.(*ssa.Store); ok && st.Addr == ssa.Value(al) {
						n++
						if _, ok := st.Val.(*ssa.Alloc); !ok {
							fresh = false
						}
					}
				}
				return fresh && n > 0
			}
		}
	}
	return false
}

func describeAccess(p *Program, ac fieldAccess) string {
	rw := "read"
	if ac.write {
		rw = "write"
	}
	return fmt.Sprintf("%s of %s in %s at %s holding %s", rw, ac.field.Name(), fnKey(ac.fn), p.pos(ac.ins.Pos()), ac.held)
}
