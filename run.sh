#!/bin/sh
# usage: run.sh <property> <quick|thorough>
# Analyses /repo's current working tree with the static checker.
set -u
V="$(cd "$(dirname "$0")" && pwd)"
export GOFLAGS=-mod=mod GOPROXY=off GOSUMDB=off GOTOOLCHAIN=local GOWORK=off
prop="$1"; tier="${2:-quick}"
# (re)build the checker when missing or older than its sources
if [ ! -x "$V/bin/imapcheck" ] || [ -n "$(find "$V/checker" -name '*.go' -newer "$V/bin/imapcheck" 2>/dev/null | head -1)" ]; then
  "$V/setup.sh" >&2 || { echo "UNRESOLVED checker build failed"; exit 2; }
fi
REPO="${VERIF_REPO:-/repo}"
"$V/bin/imapcheck" -repo "$REPO" -verif "$V" -property "$prop" -tier "$tier"
rc=$?
if [ "$tier" = thorough ] && [ $rc -eq 0 ] && [ -x "$V/thorough.sh" ]; then
  "$V/thorough.sh" "$prop"
  rc=$?
fi
exit $rc
