#!/bin/bash
# usage: thorough.sh <property>
# Called by run.sh after the thorough-tier analysis of /repo's working tree
# passed. Adds, still without executing anything of /repo:
#   1. the same analysis with GOARCH=386 (32-bit int/pointer sizes, other
#      build-constrained files);
#   2. a self-test of the checker: every archived seeded change for this
#      property (/verif/seeded/*/patch.diff, confirmed behaviour-breaking
#      changes that compile and pass the suite) is applied to a scratch copy of
#      /repo's *current* tree and must be reported; a change the checker used
#      to catch and no longer does makes this tier fail with exit 2 (the
#      checker lost its teeth; that is not a violation of the property).
# Results are merged into /verif/evidence/<property>.json under
# coverage.thorough.
set -u
V="$(cd "$(dirname "$0")" && pwd)"
prop="$1"
REPO="${VERIF_REPO:-/repo}"
export GOFLAGS=-mod=mod GOPROXY=off GOSUMDB=off GOTOOLCHAIN=local GOWORK=off
S=$(mktemp -d "${TMPDIR:-/tmp}/imapcheck-thorough.XXXXXX")
trap 'rm -rf "$S"' EXIT

# ---- 1. GOARCH=386 -----------------------------------------------------------
mkdir -p "$S/v386/evidence"
cp "$V/known_findings.json" "$S/v386/"
out386=$("$V/bin/imapcheck" -repo "$REPO" -verif "$S/v386" -property "$prop" -tier thorough -goarch 386 2>&1)
rc386=$?
if [ $rc386 -ne 0 ]; then
  # keep the replay files where the printed paths say they are
  mkdir -p "$V/evidence/violations"
  for f in "$S"/v386/evidence/violations/*.json; do
    [ -f "$f" ] && cp "$f" "$V/evidence/violations/386-$(basename "$f")"
  done
  echo "$out386" | sed "s#$S/v386/evidence/violations/#$V/evidence/violations/386-#g"
  echo "== $prop: GOARCH=386 analysis did not pass (rc=$rc386)"
  exit $rc386
fi
sum386=$(echo "$out386" | grep -E "^== $prop: " | tail -1)
echo "  thorough: GOARCH=386 $sum386"

# ---- 2. self-test on the archived seeded changes -----------------------------
results="$S/selftest.jsonl"; : > "$results"
run_seed() { # $1 = seed dir
  local d="$1" id t rc out why
  id=$(basename "$d")
  t="$S/t-$id"
  rsync -a --exclude .git "$REPO/" "$t/"
  if ! ( cd "$t" && patch -p1 -s --dry-run --no-backup-if-mismatch < "$d/patch.diff" >/dev/null 2>&1 ); then
    jq -cn --arg id "$id" '{seed:$id, outcome:"skipped", why:"patch no longer applies to the current tree"}' >> "$results"
    rm -rf "$t"; return
  fi
  ( cd "$t" && patch -p1 -s --no-backup-if-mismatch < "$d/patch.diff" >/dev/null 2>&1 )
  mkdir -p "$S/v-$id/evidence"; cp "$V/known_findings.json" "$S/v-$id/"
  out=$("$V/bin/imapcheck" -repo "$t" -verif "$S/v-$id" -property "$prop" -tier quick 2>&1); rc=$?
  why=$(echo "$out" | grep -E "^  [a-zA-Z_/.0-9]+\.go:[0-9]+: rule|UNDECIDED|UNRESOLVED" | head -1 | sed "s#$t/##g" | cut -c1-300)
  jq -cn --arg id "$id" --argjson rc $rc --arg why "$why" '{seed:$id, outcome:(if $rc==0 then "MISSED" elif $rc==1 then "detected" else "detected-as-undecided" end), rc:$rc, first_report:$why}' >> "$results"
  rm -rf "$t" "$S/v-$id"
}
expected_miss=0
jobs_running=0
for d in "$V"/seeded/*/; do
  d=${d%/}
  [ -f "$d/meta.json" ] && [ -f "$d/patch.diff" ] || continue
  p=$(jq -r '.checked_as // .property' "$d/meta.json")
  [ "$p" = "$prop" ] || continue
  if jq -r '.detected_by // ""' "$d/meta.json" | grep -q "^NOT DETECTED"; then
    expected_miss=$((expected_miss+1))
    jq -cn --arg id "$(basename "$d")" --arg why "$(jq -r .detected_by "$d/meta.json")" '{seed:$id, outcome:"known-gap", why:$why}' >> "$results"
    continue
  fi
  run_seed "$d" &
  jobs_running=$((jobs_running+1))
  if [ $jobs_running -ge 4 ]; then wait -n; jobs_running=$((jobs_running-1)); fi
done
wait
missed=$(jq -r 'select(.outcome=="MISSED") | .seed' "$results" | sort | paste -sd, -)
ndet=$(jq -r 'select(.outcome|startswith("detected")) | .seed' "$results" | wc -l)
nskip=$(jq -r 'select(.outcome=="skipped") | .seed' "$results" | wc -l)
echo "  thorough: self-test on archived seeded changes: $ndet detected, $nskip skipped (patch no longer applies), $expected_miss recorded gaps${missed:+, MISSED: $missed}"

# ---- 2b. silence on behaviour-preserving refactorings ------------------------
bres="$S/benign.jsonl"; : > "$bres"
run_benign() { # $1 = patch
  local pt="$1" id t rc out why
  id=$(echo "$pt" | sed "s#$V/benign/##; s#/#-#g; s#\.diff##")
  t="$S/b-$id"
  rsync -a --exclude .git "$REPO/" "$t/"
  if ! ( cd "$t" && patch -p1 -s --dry-run --no-backup-if-mismatch < "$pt" >/dev/null 2>&1 ); then
    jq -cn --arg id "$id" '{patch:$id, outcome:"skipped", why:"patch no longer applies to the current tree"}' >> "$bres"
    rm -rf "$t"; return
  fi
  ( cd "$t" && patch -p1 -s --no-backup-if-mismatch < "$pt" >/dev/null 2>&1 )
  mkdir -p "$S/vb-$id/evidence"; cp "$V/known_findings.json" "$S/vb-$id/"
  out=$("$V/bin/imapcheck" -repo "$t" -verif "$S/vb-$id" -property "$prop" -tier quick 2>&1); rc=$?
  why=$(echo "$out" | grep -E "^  [a-zA-Z_/.0-9]+\.go:[0-9]+: rule|UNDECIDED|UNRESOLVED|BELOW FLOOR" | head -1 | sed "s#$t/##g" | cut -c1-300)
  jq -cn --arg id "$id" --argjson rc $rc --arg why "$why" '{patch:$id, outcome:(if $rc==0 then "silent" else "ALARM" end), rc:$rc, first_report:$why}' >> "$bres"
  rm -rf "$t" "$S/vb-$id"
}
jobs_running=0
if [ -f "$V/benign/areas.json" ]; then
  for area in $(jq -r --arg p "$prop" 'to_entries[] | select(.value | index($p)) | .key' "$V/benign/areas.json"); do
    for pt in "$V"/benign/$area/patch*.diff; do
      [ -f "$pt" ] || continue
      run_benign "$pt" &
      jobs_running=$((jobs_running+1))
      if [ $jobs_running -ge 4 ]; then wait -n; jobs_running=$((jobs_running-1)); fi
    done
  done
  wait
fi
alarms=$(jq -r 'select(.outcome=="ALARM") | .patch' "$bres" | sort | paste -sd, -)
nsil=$(jq -r 'select(.outcome=="silent") | .patch' "$bres" | wc -l)
nbskip=$(jq -r 'select(.outcome=="skipped") | .patch' "$bres" | wc -l)
echo "  thorough: self-test on behaviour-preserving refactorings: $nsil silent, $nbskip skipped${alarms:+, ALARMS: $alarms}"

# ---- 3. merge into the evidence file -----------------------------------------
ev="$V/evidence/$prop.json"
if [ -f "$ev" ]; then
  jq --arg s386 "$sum386" --slurpfile st <(jq -s . "$results") --slurpfile bn <(jq -s . "$bres") \
    '.coverage.thorough = {goarch_386: $s386, selftest_seeded_changes: $st[0], selftest_behaviour_preserving_refactorings: $bn[0]}' "$ev" > "$S/ev.json" && cp "$S/ev.json" "$ev"
fi
if [ -n "$alarms" ]; then
  echo "UNDECIDED $prop: the checker raises an alarm on behaviour-preserving refactoring(s) it is recorded to accept: $alarms (checker regression, not a violation of the property)"
  exit 2
fi
if [ -n "$missed" ]; then
  echo "UNDECIDED $prop: the checker no longer reports seeded change(s) it is recorded to catch: $missed (checker regression, not a violation of the property)"
  exit 2
fi
exit 0
